"""C19 -- process variables access their own bits and bytes on both paths"""
import json

import z3

from vc import parallel, smt, stagea as A
from vc import report as R
from vc.pyvc import api, lib


# ------------------------------------------------------------ python path
def native_py(contract, name, conc, notes):
    """the real PacketVar method on the model's frame"""
    import copy
    from contracts import c19_procvar as S
    from ebpfcat.ebpfcat import PacketVar
    from vc.pyvc import replay as RP

    def call_history(args):
        f = args["var"]
        term = object()
        var = PacketVar(term, f["sm"], f["position"], f["size"])
        cd = bytearray(args["device"]["sync_group"]["current_data"])
        group = RP.NS(current_data=cd, pdo_assign={term: {f["sm"]: args["base"]}})
        dev = RP.NS(sync_group=group)
        args["var"], args["device"] = var, dev
        args["frame2"] = bytearray(args["frame2"])
        if contract.target.__name__ == "get_after_new_frame":
            return S.get_after_new_frame(var, dev, args["frame2"])
        return S.set_after_new_frame(var, dev, args["frame2"], args["value"])

    if contract.target.__name__.endswith("_after_new_frame"):
        return RP.replay(contract, name, {k: v for k, v in conc.items()}, call_history, S)

    if contract.target.__qualname__ == "StructDesc.__init__":
        from ebpfcat.ebpfcat import StructDesc
        from ebpfcat.ethercat import SyncManager
        bad = []
        for args, want in (((0x10,), (0x10, 0x10, 0x10)), ((0x10, 4), (0x10, 4, 0x10)), ((0x10, 4, 7), (0x10, 4, 7))):
            d = StructDesc(object, *args)
            got = (d.position_offset[SyncManager.IN], d.position_offset[SyncManager.OUT], d.position_offset[None])
            if got != want:
                bad.append((args, got, want))
        return {"inputs": {"channels": "Channel(0x10), Channel(0x10, 4), Channel(0x10, 4, 7)"}, "reproduced": bool(bad),
                "detail": f"real StructDesc: (arguments, (IN, OUT, CoE) offsets, expected) {bad}"}

    if contract.target.__qualname__ == "ProcessDesc.__get__":
        from ebpfcat.ebpfcat import ProcessDesc
        from ebpfcat.ethercat import SyncManager, Terminal
        override = conc["self"]["size"]
        mapped = "H" if "mapped 'H'" in contract.short else 5
        sm = conc["sm"] if isinstance(conc["sm"], SyncManager) else SyncManager(conc["sm"])
        t = object.__new__(Terminal)
        t.position_offset = {None: 0x10}
        t.pdos = {(0x6010, 1): (sm, conc["offset"], mapped)}
        var = ProcessDesc(0x6000, 1, override).__get__(t, Terminal)
        want = override if override is not None else mapped
        ok = var.terminal is t and var.sm == sm and var.position == conc["offset"] and var.size == want \
            and type(var.size) is type(want)
        return {"inputs": {"override": override, "mapped": mapped, "sm": sm.name, "offset": conc["offset"]},
                "reproduced": not ok,
                "detail": f"real ProcessDesc(0x6000, 1, {override!r}).__get__ on a terminal whose PDO mapping has "
                          f"({sm.name}, {conc['offset']}, {mapped!r}): PacketVar(sm={var.sm.name}, "
                          f"position={var.position}, size={var.size!r}); the declared size is {want!r}"}

    def call(args):
        f = args["self"]
        term = object()
        var = PacketVar(term, f["sm"], f["position"], f["size"])
        cd = bytearray(args["device"]["sync_group"]["current_data"])
        group = RP.NS(current_data=cd, pdo_assign={term: {f["sm"]: args["base"]}})
        dev = RP.NS(sync_group=group)
        args["self"], args["device"] = var, dev
        meth = contract.target.__name__
        if meth == "get":
            return var.get(dev)
        if meth == "set":
            return var.set(dev, args["value"])
        if meth == "fmt_addr":
            return var.fmt_addr(dev)
        return var._start(dev)
    conc = {k: v for k, v in conc.items()}
    return RP.replay(contract, name, conc, call, S)


# ----------------------------------------------------------- program path
def program_jobs(rep, tier):
    from contracts import c19_program as P
    from vc.bpfvc import Env, MapModel
    from vc.bpfvc import run as bpf_run
    jobs, texts, infos = [], {}, {}
    pkt_len = z3.BitVec("pkt_len", 64)
    pkt0 = z3.Array("pkt0", z3.BitVecSort(64), z3.BitVecSort(8))
    map0 = z3.Array("map77_init", z3.BitVecSort(64), z3.BitVecSort(8))
    i = z3.BitVec("i", 64)
    cases = P.cases(tier)
    for size, pin, pout, fm in cases:
        label = f"{size}@in+{pin}/out+{pout}/{'fmmu' if fm else 'direct'}"
        info = P.build(size, pin, pout, fm)
        infos[label] = info
        rep.function(f"FastSyncGroup(Probe<{label}>).assemble() bytes", info["code"].hex())
        # both paths name the same bytes (fmt_addr vs _start on the real objects)
        ok = info["ain"] == info["s_in"] + 14 and info["aout"] == info["s_out"] + 14
        rep.obligation(f"same_bytes_on_both_paths <{label}>",
                       smt.Result(smt.PROVED if ok else smt.REFUTED, "cpython", 0, None,
                                  f"fmt_addr={info['ain']},{info['aout']} _start={info['s_in']},{info['s_out']}"),
                       func="PacketVar.fmt_addr/_start on the real objects",
                       text="program address == Python start + 14 (Ethernet header)",
                       replay=lambda m, info=info: {"inputs": label, "reproduced": True,
                                                    "detail": str({k: info[k] for k in ('ain', 'aout', 's_in', 's_out')})})
        env = Env(ctx="xdp", pkt_len=pkt_len, pkt_mem=pkt0,
                  maps={77: MapModel("array", 4, info["map_size"])})
        res = bpf_run(info["code"], env)
        if res.aborted:
            rep.out_of_reach(f"{label}: aborted paths")
            continue
        wfmt, woff = info["wkc_errors"]

        def add(clause, hyps, goal, text, canary=False):
            name = f"{clause} <{label}>"
            texts[name] = text
            jobs.append((name, list(hyps), goal, 20000,
                         (lambda m, info=info: concretise(m, info, pkt0, map0)), canary))
        for ob in res.obligations:
            cond = ob.cond if not isinstance(ob.cond, bool) else z3.BoolVal(ob.cond)
            add(f"safety[{ob.kind}@slot{ob.slot}]", ob.pc, cond, ob.desc)
        s_in, s_out = info["s_in"] + 14, info["s_out"] + 14
        dvn = A.FMT_SIZE[info["dvfmt"]]
        for path in res.paths:
            enabled = z3.And(z3.UGE(pkt_len, info["frame_size"]),
                             A.value_of(map0, woff, wfmt) != 0)
            hyp = list(path.pc) + [enabled]
            if not smt.feasible(hyp, 5000):
                continue
            fin = path.regions["pkt"].mem
            fmap = path.regions["map77"].mem if "map77" in path.regions else map0
            seen_after = A.rd_le(fmap, info["seen"], dvn)
            cmd_before = A.rd_le(map0, info["cmd"], dvn)
            if isinstance(size, int):
                b_in, b_out = info["fin"][0], info["fout"][0]
                inbit = z3.Extract(b_in, b_in, A.sel(pkt0, s_in))
                add("program_reads_its_own_bit", hyp, seen_after == z3.ZeroExt(7, inbit),
                    "device variable == bit b of frame[14+s_in]")
                outbyte = A.sel(fin, s_out)
                add("program_writes_its_own_bit", hyp,
                    (z3.Extract(b_out, b_out, outbyte) == 1) == (cmd_before != 0),
                    "bit b of frame[14+s_out] == (device variable != 0)")
                mask = 0xff ^ (1 << b_out)
                add("program_keeps_the_other_bits", hyp,
                    (outbyte & mask) == (A.sel(pkt0, s_out) & mask), "other bits of the byte unchanged")
                n_out = 1
                add("CANARY[bit 0 is written]", hyp,
                    (z3.Extract(0, 0, outbyte) == 1) == (cmd_before != 0) if b_out != 0 else z3.BoolVal(False),
                    "wrong on purpose", canary=True)
            else:
                n = A.FMT_SIZE[size]
                add("program_reads_its_own_bytes_little_endian", hyp,
                    seen_after == A.rd_le(pkt0, s_in, n),
                    "device variable (native little endian in the map) == frame[14+s_in : +n]")
                add("program_writes_its_own_bytes_little_endian", hyp,
                    A.rd_le(fin, s_out, n) == cmd_before,
                    "frame'[14+s_out : +n] == the device variable's bytes")
                n_out = n
                add("CANARY[bytes are swapped]", hyp,
                    A.rd_be(fin, s_out, n) == cmd_before if n > 1 else z3.BoolVal(False),
                    "wrong on purpose", canary=True)
            keep = z3.And(z3.Or(z3.ULT(i, s_out), z3.UGE(i, s_out + n_out)),
                          z3.Not(P.rewritten_by_activate(info, i)))
            add("program_touches_no_other_frame_byte", hyp + [keep],
                A.sel(fin, i) == A.sel(pkt0, i),
                "every other byte of the frame is unchanged (command bytes / working counters of write "
                "datagrams excepted: C21)")
    return jobs, texts, infos, len(cases)


def concretise(model, info, pkt0, map0):
    n = max(info["frame_size"], 64)
    pkt = bytes(model.eval(z3.Select(pkt0, z3.BitVecVal(k, 64)), model_completion=True).as_long()
                for k in range(n))
    mp = bytes(model.eval(z3.Select(map0, z3.BitVecVal(k, 64)), model_completion=True).as_long()
               for k in range(info["map_size"]))
    return {"packet": pkt, "map": mp}


def replay_program(info, size, pkt, mp):
    """ISA model (concrete) on the real bytes vs the Python path (real
    PacketVar.get/set) on the same frame"""
    import struct
    from ebpfcat.ebpfcat import PacketVar
    from vc.bpfvc import Env, MapModel, run_concrete
    from vc.pyvc import replay as RP
    r = run_concrete(info["code"], Env(ctx="xdp", maps={77: MapModel("array", 4, info["map_size"])}),
                     pkt=pkt, mem={"map77": mp})
    fpkt, fmap = r[3]["pkt"], r[3].get("map77", mp)
    # python path on the same frame (without the ethernet header)
    term = object()
    frame = bytearray(pkt[14:])
    fsize = (info["fout"][0] if isinstance(size, int) else size)
    vin = PacketVar(term, 1, 0, info["fin"][0] if isinstance(size, int) else size)
    vout = PacketVar(term, 2, 0, fsize)
    grp = RP.NS(current_data=frame, pdo_assign={term: {1: info["s_in"], 2: info["s_out"]}})
    dev = RP.NS(sync_group=grp)
    py_seen = vin.get(dev)
    dvn = A.FMT_SIZE[info["dvfmt"]]
    cmdv = struct.unpack_from("<" + info["dvfmt"], mp, info["cmd"])[0]
    vout.set(dev, cmdv)
    prog_seen = struct.unpack_from("<" + info["dvfmt"], bytes(fmap), info["seen"])[0]
    n_out = 1 if isinstance(size, int) else A.FMT_SIZE[size]
    so = info["s_out"] + 14
    same_out = bytes(fpkt[so:so + n_out]) == bytes(frame[info["s_out"]:info["s_out"] + n_out])
    same_in = int(py_seen) == prog_seen
    return {"inputs": {"packet": pkt, "map": mp},
            "reproduced": not (same_in and same_out),
            "detail": f"program path (ISA model on the real bytes): seen={prog_seen}, output bytes "
                      f"{bytes(fpkt[so:so + n_out]).hex()}; Python path (real PacketVar.get/set) on the same "
                      f"frame: value={int(py_seen)}, output bytes "
                      f"{bytes(frame[info['s_out']:info['s_out'] + n_out]).hex()}"}


def run(tier, seed):
    from contracts import c19_procvar as S
    rep = R.Report("C19", tier, seed)
    for a in lib.ASSUMED:
        rep.assume(a)
    rep.assume("pdo_assign[terminal][sm] is the first byte of the terminal's region (C18); the variable lies "
               "inside the frame (precondition: PDO entry inside the terminal's process-data size, C17)")
    rep.assume("formats B H I Q b h i q and bits 0..7; float formats (f, d) are outside the encoder's reach")
    rep.assume("host is little endian (A-LE): device variables in the array map are native = little endian")
    rep.assume("eBPF ISA model of vc/bpfvc; map_lookup_elem contract")
    for c in S.all_contracts(tier):
        api.verify(c, rep, quiet=True, replay=lambda n, i, nt, c=c: native_py(c, n, i, nt))
    jobs, texts, infos, ncases = program_jobs(rep, tier)
    rep.bound(f"program path: Stage A over {ncases} generated programs (every format and bit, FMMU and direct "
              f"addressing, a few positions); each proved for all frames, lengths and map contents.  The Python "
              f"path is proved for symbolic positions and frames of any length.")
    merged = parallel.aggregate(parallel.discharge(jobs))
    rep.extra["vc_queries"] = rep.extra.get("vc_queries", 0) + len(jobs)
    for name, m in merged.items():
        res = parallel.to_result(m)
        if name.startswith("CANARY"):
            if not z3.is_false(z3.simplify(jobs[m["i"]][2])):
                rep.canary(name, res)
            continue
        label = name.split("<", 1)[1][:-1]
        info = infos[label]
        size = label.split("@")[0]
        size = int(size) if size.isdigit() else size
        rp = None
        if res.verdict == smt.REFUTED and isinstance(m.get("data"), dict) and "packet" in m["data"]:
            rp = lambda _m, d=m["data"], info=info, size=size: replay_program(info, size, d["packet"], d["map"])
        rep.obligation(name, res, func="generated program bytes", text=texts[name], replay=rp,
                       candidate=m.get("candidate", False))
    return rep.finish(
        explanation="pyvc: the real source of PacketVar.get/set/_start/fmt_addr (with the closures they install) "
        "against byte-level little-endian postconditions, symbolic position and frame; bpfvc: the generated "
        "program of a FastSyncGroup that copies a terminal variable to/from a device variable, for every format "
        "and bit; both name the same bytes (fmt_addr == _start + 14)",
        trusted_base=["pyvc encoding (vc/pyvc)", "eBPF ISA model vc/bpfvc", "z3 5.1"], level="other")


def replay_file(path):
    d = json.load(open(path))
    print(json.dumps(d, indent=1)[:3000])
    return 0
