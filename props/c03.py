"""C03 -- conditional blocks run exactly the branch the condition selects"""
import json
import multiprocessing as mp
import os

import z3

from vc import smt, stagea as A
from vc import report as R
from vc import dsl as D


def cclass(c):
    if isinstance(c, D.Cmp):
        from props.c01 import klass
        return f"{klass(c.l)}{c.op}{klass(c.r)}"
    if isinstance(c, D.Truth):
        from props.c01 import klass
        return f"truth({klass(c.e)})"
    if isinstance(c, D.Bits):
        return c.label().replace(c.name, "bits")
    if isinstance(c, D.Not):
        return f"~({cclass(c.c)})"
    return f"({cclass(c.l)}){'&' if c.is_and else '|'}({cclass(c.r)})"


def region(conds):
    """region predicate of the recorded finding (None = must hold)"""
    def walk(c):
        if isinstance(c, D.Cmp):
            yield c
        elif isinstance(c, D.Not):
            yield from walk(c.c)
        elif isinstance(c, D.Junction):
            yield from walk(c.l)
            yield from walk(c.r)
    for cond in conds:
        for c in walk(cond):
            if c.op in ("<", "<=", ">", ">=") and not isinstance(c.l, D.Const) and not c.l.signed \
                    and c.l.size == 8 and c.r.signed and not isinstance(c.r, D.Const) and c.r.size <= 4:
                return ("R-MIXCMP: ordering comparison of an unsigned 8-byte left operand with a signed right "
                        "operand of at most 4 bytes")
    for cond in conds:
        for c in walk(cond):
            sides = (c.l, c.r)
            if any(isinstance(s, D.Reg) and s.kind == "sw" for s in sides) and any(getattr(s, "fixed", False) for s in sides):
                return ("R-VIEW32-CMP: a signed 32-bit register view compared with a fixed-point operand (the "
                        "scaled register is not sign-extended to 64 bits; same root as C01's R-VIEW32)")
    return None


def check_program(job):
    from contracts import c03_cond as S
    from vc.bpfvc import Env, run as bpf_run
    kind, conds = job
    label = f"{kind}: " + " ; ".join(c.label() for c in conds)
    reg = region(conds)
    name = f"{kind}[" + " ; ".join(cclass(c) for c in conds) + "]" if reg is None else f"cmp[{reg}]"
    out = {"name": name, "label": label, "verdict": smt.PROVED, "backend": "z3-5.1(api)", "seconds": 0.0,
           "queries": 0, "data": None, "raw": ""}
    try:
        code, layout = S.build(kind, conds)
    except Exception as e:
        out.update(verdict="rejected", raw=repr(e))
        return out
    st = D.SymState(layout)
    res = bpf_run(code, Env(ctx=None, regs=dict(st.regs)))
    if res.aborted or any(z3.is_false(z3.simplify(o.cond)) for o in res.obligations if not isinstance(o.cond, bool)):
        out.update(verdict=smt.REFUTED, raw="generated code faults", data={"fault": True})
        return out
    specs = [c.spec(st) for c in conds]
    fitsall = z3.And(*[f for _, f in specs])
    exp = S.expected(kind, [t for t, _ in specs])
    for path in res.paths:
        fin = path.regions["stack"].mem
        goals = []
        for m, cond in exp.items():
            off = A.stack_off(layout[f"m{m}"])
            goals.append(A.sel(fin, off) == z3.If(cond, z3.BitVecVal(1, 8), A.sel(st.stack, off)))
        goals.append(z3.And(path.exit == "EXIT"))
        r = smt.prove(list(path.pc) + [fitsall], z3.And(*goals), 20000)
        out["queries"] += 1
        out["seconds"] += r.seconds
        if r.verdict != smt.PROVED:
            out["verdict"], out["backend"] = r.verdict, r.backend
            if r.model is not None:
                m = r.model
                out["data"] = {"regs": {k: m.eval(v, model_completion=True).as_long() for k, v in st.regs.items()},
                               "stack": bytes(m.eval(A.sel(st.stack, j), model_completion=True).as_long()
                                              for j in range(512))}
            return out
    for ob in res.obligations:
        cond = ob.cond if not isinstance(ob.cond, bool) else z3.BoolVal(ob.cond)
        if smt.prove(list(ob.pc), cond, 10000).verdict != smt.PROVED:
            out.update(verdict=smt.REFUTED, raw=f"unsafe access {ob.kind}@{ob.slot}")
            return out
    return out


def replay_one(kind, conds, data):
    from contracts import c03_cond as S
    from vc.bpfvc import Env, run_concrete
    code, layout = S.build(kind, conds)
    regs = {int(k): v for k, v in data["regs"].items()}
    stack = bytearray(data["stack"])
    for m in range(6):
        stack[A.stack_off(layout[f"m{m}"])] = 0
    r = run_concrete(code, Env(ctx=None), regs=regs, mem={"stack": bytes(stack)})
    got = {m: r[3]["stack"][A.stack_off(layout[f"m{m}"])] for m in range(6)}
    truths = [c.py(regs, bytes(stack), layout) for c in conds]
    t0 = truths[0]
    t1 = truths[1] if len(truths) > 1 else False
    want = {"if": {0: t0, 1: False, 2: True, 3: False, 4: False, 5: False},
            "ifelse": {0: t0, 1: not t0, 2: True, 3: False, 4: False, 5: False},
            "nested": {0: t0, 1: not t0, 2: True, 3: t0 and t1, 4: t0 and not t1, 5: t0},
            "ifelse_empty": {0: t0, 1: False, 2: True, 3: False, 4: False, 5: False},
            "nested_empty": {0: t0, 1: not t0, 2: True, 3: t0 and t1, 4: False, 5: t0},
            "sequence": {0: t0, 1: False, 2: True, 3: t1, 4: not t1, 5: False}}[kind]
    ok = all(bool(got[m]) == bool(want[m]) for m in range(6))
    ops = {}
    for c in conds:
        for a in c.atoms():
            if isinstance(a, (D.Reg, D.Loc)):
                ops[a.label()] = D.pyatom(a, regs, bytes(stack), layout)
            elif isinstance(a, D.Bits):
                ops[a.name] = stack[A.stack_off(layout[a.name])]
    return {"inputs": {"program": f"{kind}: " + " ; ".join(c.label() for c in conds), "operands": ops},
            "reproduced": not ok,
            "detail": f"ISA model on the real bytes: markers set {got}; condition values {truths}; expected {want}"}


def run(tier, seed):
    from contracts import c03_cond as S
    rep = R.Report("C03", tier, seed)
    rep.assume("eBPF ISA model of vc/bpfvc")
    jobs = S.programs(tier)
    rep.bound(f"Stage A: {len(jobs)} programs (all six comparisons over the operand alphabet, bit tests, single- "
              f"and multi-bit fields, negation, &/| combinations of depth <= 2, with and without Else, nested and "
              f"sequenced) built with the real DSL; each proved for all register/memory contents that satisfy the "
              f"property's range precondition. 32-bit register views are not in the alphabet (C01 finding R-VIEW32).")
    procs = int(os.environ.get("VERIF_PROCS", "14"))
    with mp.get_context("fork").Pool(procs) as pool:
        results = pool.map(check_program, jobs, chunksize=8)
    merged = {}
    for job, r in zip(jobs, results):
        m = merged.setdefault(r["name"], {"n": 0, "seconds": 0.0, "bad": None, "rejected": 0, "labels": []})
        m["n"] += 1
        m["seconds"] += r["seconds"]
        if r["verdict"] == "rejected":
            m["rejected"] += 1
            m["labels"].append(r["label"] + " REJECTED " + r["raw"])
        elif r["verdict"] != smt.PROVED and (m["bad"] is None or m["bad"][1]["data"] is None):
            m["bad"] = (job, r)
        if len(m["labels"]) < 2:
            m["labels"].append(r["label"])
    rep.extra["programs"] = len(jobs)
    rep.extra["rejected_by_generator"] = sum(m["rejected"] for m in merged.values())
    for name, m in sorted(merged.items()):
        if m["n"] == m["rejected"]:
            rep.sample({"rejected": m["labels"][:1]})
            continue
        if m["bad"] is None:
            rep.obligation(name, smt.Result(smt.PROVED, "z3-5.1(api)", m["seconds"]),
                           func="generated construct", text="; ".join(m["labels"][:2]))
            continue
        (kind, conds), r = m["bad"]
        res = smt.Result(r["verdict"], r["backend"], m["seconds"], r["data"], r["raw"])
        rp = None
        if r["data"] is not None and "regs" in r["data"]:
            rp = lambda _m, k=kind, c=conds, d=r["data"]: replay_one(k, c, d)
        elif r["data"] is not None:
            rp = lambda _m, r=r: {"inputs": r["label"], "reproduced": True, "detail": r["raw"]}
        rep.obligation(name, res, func="generated construct", text=r["label"], replay=rp)
    c = D.Cmp("<", D.Reg("sr", 3), D.Loc("q"))
    code, layout = S.build("ifelse", [c])
    from vc.bpfvc import Env, run as bpf_run
    st = D.SymState(layout)
    res = bpf_run(code, Env(ctx=None, regs=dict(st.regs)))
    t, f = c.spec(st)
    p0 = res.paths[0]
    off = A.stack_off(layout["m0"])
    rep.canary("CANARY[body runs when the condition is false]", smt.prove(
        list(p0.pc) + [f], A.sel(p0.regions["stack"].mem, off) == z3.If(z3.Not(t), z3.BitVecVal(1, 8), A.sel(st.stack, off))))
    return rep.finish(
        explanation="Stage A (bounded in program shape): each enumerated conditional construct is built with the "
        "real DSL and its assembled bytes are proved by bpfvc: the body marker is set iff the condition is true, "
        "the Else marker iff it is false, the after marker always",
        trusted_base=["eBPF ISA model vc/bpfvc", "z3 5.1"], level="other")


def replay_file(path):
    print(json.dumps(json.load(open(path)), indent=1)[:3000])
    return 0
