"""C08 -- array-map variables read back the same on both sides"""
import json

import z3

from vc import parallel, smt, stagea as A
from vc import report as R
from vc.pyvc import api, lib

OPTS = {"inline": {"ebpfcat.arraymap:ArrayGlobalVarDesc.unpack", "ebpfcat.arraymap:ArrayGlobalVarDesc.fmt_addr"}}


def native_collect(contract, name, conc, notes):
    """a real class hierarchy of the failing shape, with real formats; the real
    collect(); the layout clauses evaluated on the effective descriptors"""
    from ebpfcat.arraymap import ArrayGlobalVarDesc, ArrayMap
    m = ArrayMap()

    class Base:
        amap = m
        a = m.globalVar("B")
        b = m.globalVar("I")

    class Prog(Base):
        a = m.globalVar("Q")      # re-declared with a larger format
    p = Prog()
    p.subprograms = []
    size = m.collect(p)
    import struct
    eff = {n: getattr(Prog, n) for n in ("a", "b")}
    rng = {n: (p.__dict__[n], p.__dict__[n] + struct.calcsize(d.fmt)) for n, d in eff.items()}
    inside = all(0 <= lo and hi <= size for lo, hi in rng.values())
    disjoint = rng["a"][1] <= rng["b"][0] or rng["b"][1] <= rng["a"][0]
    shape = name.split("<")[1].split(">")[0] if "<" in name else ""
    return {"inputs": {"declarations": "class Base: a = globalVar('B'); b = globalVar('I')   "
                                       "class Prog(Base): a = globalVar('Q')"},
            "reproduced": (not (inside and disjoint)) if shape == "redeclared" else None,
            "detail": f"real ArrayMap.collect: map size {size}, byte ranges of the effective variables {rng}: "
                      f"inside the map: {inside}, disjoint: {disjoint}"}


def native_sizes(shape, k, name):
    """the generated hierarchy with real multi-element formats of the sizes of
    vector k ("nB" has n bytes); the real collect(); layout clauses natively"""
    from contracts import c08_arraymap as S
    import ebpfcat.ebpf as E
    sname, amap, pcls, subs = shape
    real = E.fmtsize
    sizes = S.CONCRETE_SIZES[k]
    saved_fmts = {}
    objs = [pcls()] + [s() for s in subs]
    objs[0].subprograms = objs[1:]
    # give every placeholder descriptor the real format "<n>B"
    descs = set()
    for o in objs:
        for c in type(o).__mro__:
            for v in c.__dict__.values():
                if isinstance(v, S.ArrayGlobalVarDesc) and isinstance(v.fmt, str) and v.fmt.startswith("@"):
                    descs.add(v)
    for d in descs:
        saved_fmts[d] = d.fmt
        d.fmt = f"{sizes(int(d.fmt[1:]))}B"
    try:
        size = amap.collect(objs[0])
        rngs = []
        for i, o in enumerate(objs):
            for n, _ in S.effective(type(o), amap):
                d = getattr(type(o), n)
                if n in o.__dict__:
                    rngs.append((f"obj{i}.{n}", o.__dict__[n], o.__dict__[n] + real(d.fmt)))
                else:
                    rngs.append((f"obj{i}.{n}", None, None))
    finally:
        for d, f in saved_fmts.items():
            d.fmt = f
    bad = [r for r in rngs if r[1] is None or r[1] < 0 or r[2] > size]
    srt = sorted(r for r in rngs if r[1] is not None)
    overlaps = [(a[0], b[0]) for a, b in zip(srt, srt[1:]) if a[2] > b[1]]
    return {"inputs": {"shape": sname, "sizes": [r[2] - r[1] for r in rngs if r[1] is not None]},
            "reproduced": bool(bad or overlaps or size % 8),
            "detail": f"real ArrayMap.collect with formats '<n>B': map size {size}, ranges {rngs}; outside the map "
                      f"or without storage: {bad}; overlapping: {overlaps}"}


def verify_fmtsize(rep):
    """ebpf.fmtsize under its own contract; the lib model that gives the
    placeholder formats a symbolic size is switched off for this proof"""
    from contracts import c08_arraymap as S
    import ebpfcat.ebpf as E
    saved = lib.MODELS.pop(id(E.fmtsize), None)
    try:
        api.verify(S.fmtsize_contract(), rep, quiet=True,
                   replay=lambda n, i, nt: {"inputs": i, "reproduced": None,
                                            "detail": f"ebpf.fmtsize({i.get('fmt')!r}) = {E.fmtsize(i.get('fmt'))}"})
    finally:
        if saved is not None:
            lib.MODELS[id(E.fmtsize)] = saved


def program_side(rep, tier):
    from contracts import c08_arraymap as S
    from vc.bpfvc import Env, MapModel
    from vc.bpfvc import run as bpf_run
    jobs, texts = [], {}
    map0 = z3.Array("map77_init", z3.BitVecSort(64), z3.BitVecSort(8))
    k = z3.BitVec("k", 64)
    fmts = ["B", "H", "I", "Q", "b", "h", "i", "q", "x"]
    for fmt in fmts:
        info = S.build_program(fmt)
        rep.function(f"EBPF program `a = b` over an ArrayMap, format {fmt}: assemble() bytes", info["code"].hex())
        n = A.FMT_SIZE[fmt]
        off = info["off"]
        # the real collect() gave the four variables their own bytes inside the map
        rng = sorted((off[v], off[v] + (8 if v == "c" else 1 if v == "d" else n)) for v in "abcd")
        ok = all(a[1] <= b[0] for a, b in zip(rng, rng[1:])) and rng[-1][1] <= info["map_size"]
        rep.obligation(f"program_layout_disjoint <{fmt}>",
                       smt.Result(smt.PROVED if ok else smt.REFUTED, "cpython", 0, None, str(rng)),
                       func="ArrayMap.collect on the real program", text="offsets of a, b, c, d disjoint, inside",
                       replay=lambda m, rng=rng: {"inputs": str(rng), "reproduced": True, "detail": str(rng)})
        res = bpf_run(info["code"], Env(ctx=None, maps={77: MapModel("array", 4, info["map_size"])}))
        if res.aborted:
            rep.out_of_reach(f"program side {fmt}: aborted paths")
            continue

        def add(clause, hyps, goal, text, canary=False):
            name = f"{clause} <{fmt}>"
            texts[name] = text
            jobs.append((name, list(hyps), goal, 20000, None, canary))
        for ob in res.obligations:
            cond = ob.cond if not isinstance(ob.cond, bool) else z3.BoolVal(ob.cond)
            add(f"safety[{ob.kind}@slot{ob.slot}]", ob.pc, cond, ob.desc)
        touched = 0
        for path in res.paths:
            if "map77" not in path.regions:
                continue
            fin = path.regions["map77"].mem
            if fin is map0 or z3.eq(fin, map0):
                continue          # the NULL-pointer exit: nothing written
            touched += 1
            add("program_copies_the_variable_bytes", path.pc,
                A.rd_le(fin, off["a"], n) == A.rd_le(map0, off["b"], n),
                "a' == b: the program reads b's bytes and writes a's bytes of the map value")
            add("program_writes_only_its_own_bytes",
                list(path.pc) + [z3.Or(z3.ULT(k, off["a"]), z3.UGE(k, off["a"] + n))],
                A.sel(fin, k) == A.sel(map0, k), "no other byte of the map changes")
            add("CANARY[the neighbour is overwritten]", path.pc,
                A.rd_le(fin, off["c"], 8) != A.rd_le(map0, off["c"], 8), "wrong on purpose", canary=True)
        if not touched:
            rep.broken.append(f"program side {fmt}: no path writes the map")
    return jobs, texts


def native_percpu_sub(name, conc, notes):
    """a per-CPU variable declared in a subprogram, read from Python"""
    from ebpfcat.arraymap import PerCPUVar, PerCPUVarDesc

    class Map:
        name, base_register, size, cpu_no = "pmap", 0, 8, 2
    desc = PerCPUVarDesc(Map, "I")
    desc.name = "v"
    main = type("Main", (), {})()
    main.ebpf, main.loaded = main, True
    main.pmap = type("Reader", (), {"data": bytes(range(16))})()
    sub = type("Sub", (), {})()
    sub.ebpf = main
    sub.__dict__["v"] = 4
    main.__dict__["v"] = 0
    try:
        got = list(desc.__get__(sub, None))
    except Exception as e:
        got = repr(e)
    want = [0x07060504, 0x0f0e0d0c]
    return {"inputs": {"subprogram offset": 4, "main program offset of a variable of the same name": 0},
            "reproduced": got != want,
            "detail": f"real PerCPUVarDesc.__get__ on a subprogram instance read {got}, its own copies hold {want}"}


def native_percpu_x(name, conc, notes):
    """a real PerCPUVar over a buffer that holds a different fixed-point value
    for each CPU"""
    import struct
    from ebpfcat.arraymap import ArrayGlobalVarDesc, PerCPUVar
    size, cpus, addr = 16, 4, 8
    data = bytearray(size * cpus)
    vals = [1.5, -2.25, 3.0, 100.00001]
    for c, v in enumerate(vals):
        struct.pack_into("q", data, c * size + addr, round(v * 100000))

    class Map:
        name, cpu_no, base_register = "pmap", cpus, 0
    Map.size = size

    class Prog:
        pass
    inst = Prog()
    inst.ebpf = inst
    inst.pmap = type("R", (), {"data": memoryview(bytes(data))})()
    desc = ArrayGlobalVarDesc(Map, "x")
    desc.name = "v"
    inst.__dict__["v"] = addr
    var = PerCPUVar(desc, inst)
    try:
        got = [var[c] for c in range(cpus)]
    except Exception as e:      # noqa
        return {"inputs": {"values": vals}, "reproduced": True, "detail": f"raised {type(e).__name__}: {e}"}
    return {"inputs": {"per-CPU values stored": vals, "stride": size, "offset": addr}, "reproduced": got != vals,
            "detail": f"real PerCPUVar.__getitem__ for a fixed-point variable: read {got}, stored {vals}"}


def run(tier, seed):
    from contracts import c08_arraymap as S
    rep = R.Report("C08", tier, seed)
    for a in lib.ASSUMED:
        rep.assume(a)
    rep.assume("native struct formats are little endian on this host (A-LE); mmap'ed BPF_F_MMAPABLE array maps "
               "show Python the bytes the program writes (kernel contract); per-CPU values are laid out at stride "
               "roundup8(value_size) = map.size (kernel contract)")
    rep.assume("fixed-point (x) conversion on the Python side is decided under C02")
    rep.bound("collect: " + str(len(S.SHAPES)) + " generated hierarchy shapes (flat with a foreign map, inherited, "
              "re-declared name, program with three subprogram instances of two classes); all variable sizes are "
              "symbolic.  User side: formats " + ", ".join(S.USER_FMTS) + "; addresses and map contents symbolic. "
              "Program side: one generated program per format.")
    verify_fmtsize(rep)
    for sh in S.SHAPES:
        c = S.collect_contract(sh)
        api.verify(c, rep, replay=lambda n, i, nt, c=c: native_collect(c, n, i, nt))
        # the same shapes with fixed size vectors that include sizes that are
        # not powers of two (a concrete instance of the symbolic proof; it
        # yields concrete witnesses when the symbolic run is out of reach)
        for k in range(len(S.CONCRETE_SIZES)):
            c = S.collect_contract(sh, concrete=k)
            api.verify(c, rep, quiet=True,
                       replay=lambda n, i, nt, sh=sh, k=k: native_sizes(sh, k, n))
    fmts = S.USER_FMTS if tier == "thorough" else ["B", "H", "I", "q", "h", "2I", "3H"]
    for f in fmts:
        api.verify(S.user_get(f), rep, options=OPTS, quiet=True)
        api.verify(S.user_set(f), rep, options=OPTS, quiet=True)
        api.verify(S.percpu_getitem(f), rep, quiet=True)
    api.verify(S.percpu_getitem("x"), rep, quiet=True, replay=native_percpu_x)
    api.verify(S.percpu_desc_get(), rep, quiet=True, replay=native_percpu_sub)
    # a fixed-point variable written from Python: the raw 64-bit integer is the
    # scaled decimal (C02's contract of ArrayGlobalVarDesc.__set__, re-proved
    # here: symbolic under the IEEE model, and concrete samples of both signs)
    from contracts import c02_fixed as S2
    from props import c02
    for c in [S2.x_set] + [S2.x_set_sample(k) for k in S2.SAMPLES]:
        api.verify(c, rep, quiet=True, replay=c02.native_conv)
    jobs, texts = program_side(rep, tier)
    merged = parallel.aggregate(parallel.discharge(jobs))
    rep.extra["vc_queries"] = rep.extra.get("vc_queries", 0) + len(jobs)
    for name, m in merged.items():
        res = parallel.to_result(m)
        if name.startswith("CANARY"):
            rep.canary(name, res)
            continue
        rep.obligation(name, res, func="generated program bytes", text=texts[name],
                       candidate=m.get("candidate", False))
    return rep.finish(
        explanation="pyvc: the real source of ArrayMap.collect over generated class hierarchies with symbolic "
        "variable sizes (layout over the effective descriptors: inside, disjoint, multiple of 8); the real source "
        "of ArrayGlobalVarDesc.__get__/__set__ and PerCPUVar.__getitem__ against byte-level postconditions; bpfvc: "
        "a generated program per format reads and writes exactly the variable's bytes of the map value",
        trusted_base=["pyvc encoding (vc/pyvc)", "eBPF ISA model vc/bpfvc", "z3 5.1", "map_lookup_elem contract"],
        level="other")


def replay_file(path):
    d = json.load(open(path))
    r = native_collect(None, d["obligation"], None, None)
    print(r["detail"])
    return 1 if r["reproduced"] else 0
