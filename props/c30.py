"""C30 -- slow sync groups exchange process data and check working counters"""
import json

from vc import report as R
from vc.pyvc import api, lib, replay as RP


def native(contract, name, conc, notes):
    from contracts import c30_slow as S
    from ebpfcat.ebpfcat import SyncGroup

    def call(args):
        sg = object.__new__(SyncGroup)
        f = args["self"]
        sg.current_data = bytearray(f["current_data"])
        sg.wkc_errors = f["wkc_errors"]
        sg.devices = []
        sg.name = "group"
        pairs = [tuple(p) for p in f["packet"]["counters"]["pairs"]]
        sg.packet = RP.NS(counters=dict(pairs))
        r = SyncGroup.update_devices(sg, args["data"])
        sg.packet = RP.NS(counters=RP.NS(pairs=pairs))
        args["self"] = sg
        return r
    r = RP.replay(contract, name, conc, call, S)
    return r


def run(tier, seed):
    from contracts import c30_slow as S
    rep = R.Report("C30", tier, seed)
    for a in lib.ASSUMED:
        rep.assume(a)
    rep.assume("packet.counters holds, for every datagram, the position of its working counter and the expected "
               "count (established by SterilePacket.append, C11/C18); positions do not overlap")
    rep.assume("devices are under their own contracts (C19/C27); the device list is empty here")
    rep.bound("bounded in the number of datagrams of the frame (0..3); positions, counts, frame bytes unbounded")
    for c in S.CONTRACTS:
        api.verify(c, rep, replay=lambda n, i, nt, c=c: native(c, n, i, nt))
    return rep.finish(
        explanation="pyvc: the real source of SyncGroup.update_devices is executed symbolically for frames with "
        "0..3 datagrams against the working-counter clauses of the property (16-bit counters)",
        trusted_base=["pyvc encoding (vc/pyvc)", "z3 5.1"], level="other")


def replay_file(path):
    print(json.dumps(json.load(open(path)), indent=1)[:3000])
    return 0
