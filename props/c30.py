"""C30 -- slow sync groups exchange process data and check working counters"""
import json

from vc import report as R
from vc.pyvc import api, lib, replay as RP


def native(contract, name, conc, notes):
    from contracts import c30_slow as S
    from ebpfcat.ebpfcat import SyncGroup

    def call(args):
        sg = object.__new__(SyncGroup)
        f = args["self"]
        sg.current_data = bytearray(f["current_data"])
        sg.wkc_errors = f["wkc_errors"]
        sg.devices = []
        sg.name = "group"
        pairs = [tuple(p) for p in f["packet"]["counters"]["pairs"]]
        sg.packet = RP.NS(counters=dict(pairs))
        r = SyncGroup.update_devices(sg, args["data"])
        sg.packet = RP.NS(counters=RP.NS(pairs=pairs))
        args["self"] = sg
        return r
    r = RP.replay(contract, name, conc, call, S)
    return r


def native_fmmu(name, conc, notes):
    """the real SterilePacket.append_fmmu on a fresh packet with the model's
    FMMU sizes and terminal counts"""
    from ebpfcat.ebpfcat import SterilePacket
    f = conc.get("self", {}) if isinstance(conc, dict) else {}
    p = SterilePacket()
    p.fmmu_in_size = max(1, min(int(f.get("fmmu_in_size", 4) or 4), 200))
    p.fmmu_out_size = max(1, min(int(f.get("fmmu_out_size", 4) or 4), 200))
    p.fmmu_in_count, p.fmmu_out_count = 3, 2      # three reading terminals, two of them written
    p.append_fmmu(0x1000)
    lrd, lwr = p.data[0], p.data[1]
    ok = lrd[2] == 3 and lwr[2] == 2 and p.counters[p.size - 2] == 2
    return {"inputs": {"fmmu_in_size": p.fmmu_in_size, "fmmu_out_size": p.fmmu_out_size,
                       "terminals read": 3, "terminals written": 2},
            "reproduced": not ok,
            "detail": f"real SterilePacket.append_fmmu: expected working counters LRD={lrd[2]} (3 terminals read), "
                      f"LWR={lwr[2]} (2 terminals written), counters={p.counters}"}


def native_resend(name, conc, notes):
    """a real SyncGroup whose third response is lost: what is sent afterwards"""
    import asyncio
    from ebpfcat.ebpfcat import SyncGroup
    sent, made = [], []

    class Fut(asyncio.Future):
        pass

    class EC:
        def roundtrip_packet(self, data, index):
            sent.append(bytes(data))
            f = asyncio.get_event_loop().create_future()
            n = len(sent)
            if n != 3:                       # the third frame is lost
                asyncio.get_event_loop().call_soon(f.set_result, b"response %d" % n)
            return f

    class G(SyncGroup):
        def update_devices(self, data):
            made.append(b"frame after " + bytes(data))
            if len(made) >= 4:
                self.running = False
            return made[-1]
    g = object.__new__(G)
    g.ec, g.asm_packet, g.packet_index, g.name = EC(), b"assembled frame", 77, "g"
    g.terminals, g.cycletime, g.running, g.missed_counter, g.wkc_errors = {}, 0.0, True, 0, 0
    import contextlib

    @contextlib.asynccontextmanager
    async def no_fmmu():
        yield
    g.map_fmmu = no_fmmu
    try:
        asyncio.run(asyncio.wait_for(g.run(), 5))
    except Exception as e:      # noqa
        return {"inputs": "third response lost", "reproduced": True, "detail": f"{type(e).__name__}: {e}"}
    want = [b"assembled frame"]
    k = 0
    for i in range(1, len(sent)):
        if i == 3:
            want.append(want[-1])            # the resend after the timeout
        else:
            want.append(made[k])
            k += 1
    return {"inputs": {"scenario": "four cycles, the response to the third frame is lost"}, "reproduced": sent != want,
            "detail": f"real SyncGroupBase.run: frames sent {sent}; expected {want}"}


def run(tier, seed):
    from contracts import c30_slow as S
    rep = R.Report("C30", tier, seed)
    for a in lib.ASSUMED:
        rep.assume(a)
    rep.assume("packet.counters holds, for every datagram, the position of its working counter and the expected "
               "count (established by SterilePacket.append, C11/C18); positions do not overlap")
    rep.assume("devices are under their own contracts (C19/C27); the device list is empty here")
    rep.bound("bounded in the number of datagrams of the frame (0..3); positions, counts, frame bytes unbounded")
    # where the expected counts come from: SterilePacket.append records the
    # count it is given at the position of the datagram's working counter, and
    # append_fmmu passes the number of reading / writing terminals (C18
    # contracts, re-proved here so that a change in them fails this check too)
    from contracts import c18_alloc as S18
    api.verify(S18.s_append, rep)
    api.verify(S18.s_append_fmmu, rep, replay=native_fmmu)
    for c in S.CONTRACTS:
        api.verify(c, rep, replay=lambda n, i, nt, c=c: native(c, n, i, nt))
    # which frame the group's run() puts onto the bus: the assembled frame at
    # first, then what the last update_devices returned - also after a timeout
    from contracts import c24_cancel as S24
    saved = dict(api.REGISTRY)
    S24.install()
    try:
        api.verify(S24.run_frames_contract(), rep, replay=native_resend)
    finally:
        api.REGISTRY.clear()
        api.REGISTRY.update(saved)
    # "devices see the inputs of the latest response, the outputs they set are
    # sent in the next frame": the devices' accessors follow the group's
    # CURRENT frame buffer, also after it was replaced (a new start(); C19's
    # history contracts of PacketVar.get / set, re-proved here)
    from contracts import c19_procvar as S19
    from ebpfcat.ethercat import SyncManager
    from props import c19
    for c in S19.history_contracts("h", SyncManager.OUT) + S19.history_contracts(4, SyncManager.IN):
        api.verify(c, rep, quiet=True, replay=lambda n, i, nt, c=c: c19.native_py(c, n, i, nt))
    rep.bound("SyncGroupBase.run: the frames of the first three cycles, every combination of response and timeout "
              "(loop unrolled; update_devices and the bus by contract)")
    return rep.finish(
        explanation="pyvc: the real source of SyncGroup.update_devices is executed symbolically for frames with "
        "0..3 datagrams against the working-counter clauses of the property (16-bit counters)",
        trusted_base=["pyvc encoding (vc/pyvc)", "z3 5.1"], level="other")


def replay_file(path):
    print(json.dumps(json.load(open(path)), indent=1)[:3000])
    return 0
