"""C10 -- user-space map calls never overrun Python buffers"""
import json

from vc import report as R
from vc.pyvc import api, lib


class Recorder:
    """interposition on ebpfcat.bpf.bpf (and the two address helpers, so that
    buffer lengths are known): records the length of every buffer handed to
    the kernel.  No source change."""

    def __enter__(self):
        import ebpfcat.bpf as B
        self.B = B
        self.saved = (B.bpf, B.addrof, B.addressof, B.c_char)
        self.lens = {}
        self.calls = []
        rec = self

        class Handle:
            def __init__(self, buf):
                self.buf = buf

        class CChar:
            @staticmethod
            def from_buffer(buf):
                return Handle(buf)

        def addressof(h):
            rec.lens[id(h.buf)] = len(h.buf)
            return id(h.buf)

        def addrof(ptr):
            rec.lens[id(ptr)] = len(ptr)
            return id(ptr)

        def bpf(cmd, fmt, *args):
            rec.calls.append((cmd, [rec.lens.get(a) for a in args]))
            return 0, args
        B.bpf, B.addrof, B.addressof, B.c_char = bpf, addrof, addressof, CChar
        return self

    def __exit__(self, *a):
        B = self.B
        B.bpf, B.addrof, B.addressof, B.c_char = self.saved


def replay_hash_get(name, conc, notes):
    from ebpfcat.hashmap import HashGlobalVarDesc
    fmt = name.split("__get__<")[1].split(">")[0] if "__get__<" in name else "I"

    class Var:
        fd = 5

    class Prog:
        loaded = True
    d = HashGlobalVarDesc(1, fmt)
    d.__set_name__(Prog, "a")
    p = Prog()
    p.__dict__["a"] = Var()
    with Recorder() as r:
        try:
            d.__get__(p, Prog)
        except Exception as e:      # noqa
            pass
    lens = r.calls[0][1] if r.calls else None
    vbuf = lens[2] if lens else None
    return {"inputs": {"hash variable format": fmt, "map": "HASH key_size=1 value_size=8 (HashMap.init)"},
            "reproduced": vbuf is not None and vbuf < 8,
            "detail": f"real HashGlobalVarDesc.__get__ with bpf() interposed: BPF_MAP_LOOKUP_ELEM got a value buffer "
                      f"of {vbuf} bytes for an 8-byte value (the kernel writes 8 bytes)"}


def possible_cpus():
    try:
        s = open("/sys/devices/system/cpu/possible").read().strip()
        return int(s.split("-")[-1]) + 1
    except OSError:
        return None


def replay_percpu(name, conc, notes):
    """a process pinned to one CPU on a machine where fewer CPUs are online
    than possible (the latter simulated by interposing os.cpu_count)"""
    import os
    import ebpfcat.arraymap as AM
    possible = possible_cpus() or 16
    online = max(1, possible - 1)
    aff = os.sched_getaffinity(0)
    try:
        os.sched_setaffinity(0, {min(aff)})
        return _replay_percpu(AM, possible, online)
    finally:
        os.sched_setaffinity(0, aff)


def _replay_percpu(AM, possible, online):

    class Prog:
        pass
    m = AM.PerCPUArrayMap()
    m.name = "percpu"
    m.size = 16
    import os
    saved = getattr(AM, "cpu_count", None), AM.create_map, os.cpu_count
    if saved[0] is not None:
        AM.cpu_count = lambda: online
    os.cpu_count = lambda: online
    AM.create_map = lambda *a, **k: 5
    try:
        p = Prog()
        m.create_map(p, None)
        with Recorder() as r:
            p.percpu.read()
    finally:
        if saved[0] is not None:
            AM.cpu_count = saved[0]
        AM.create_map, os.cpu_count = saved[1], saved[2]
    vbuf = r.calls[0][1][2]
    need = 16 * possible
    return {"inputs": {"possible_cpus": possible, "online_cpus (os.cpu_count, simulated)": online,
                       "cpu affinity of the process": "one CPU", "per-CPU map value_size": 16},
            "reproduced": vbuf < need,
            "detail": f"real PerCPUArrayMap.create_map + PerCPUReader.read with bpf() interposed: value buffer of "
                      f"{vbuf} bytes, the kernel writes roundup8(16) * {possible} possible CPUs = {need} bytes"}


def replay_big_hash(name, conc, notes):
    """a real HashMap with 300 variables: every key buffer that reaches the
    (recorded) bpf wrappers is compared with the key size the map was created with"""
    import ebpfcat.hashmap as H
    made, bad = {}, []
    saved = H.create_map, H.lookup_elem, H.update_elem

    def create_map(map_type, key_size, value_size, max_entries, *a, **k):
        made[77] = key_size
        return 77

    def lookup_elem(fd, key, size):
        if len(key) < made[fd]:
            bad.append(("lookup", len(key), made[fd]))
        return bytes(8)

    def update_elem(fd, key, value, *a):
        if len(key) < made[fd]:
            bad.append(("update", len(key), made[fd]))
    H.create_map, H.lookup_elem, H.update_elem = create_map, lookup_elem, update_elem
    try:
        hm = H.HashMap()
        ns = {"loaded": False, "hm": hm}
        for i in range(300):
            ns[f"v{i + 1}"] = hm.globalVar("I")
        P = type("P", (), ns)
        p = P()
        hm.init(p, None)
        p.loaded = True
        for n in ("v1", "v255", "v300"):
            try:
                setattr(p, n, 7)
                getattr(p, n)
            except Exception:      # noqa  (refused before any kernel call)
                pass
    finally:
        H.create_map, H.lookup_elem, H.update_elem = saved
    return {"inputs": {"hash variables in one map": 300, "accessed": ["v1", "v255", "v300"]},
            "reproduced": True if bad else None,
            "detail": f"real HashMap/HashGlobalVarDesc: (call, key buffer bytes, map key size) that fall short: {bad[:4]}"}


def native(name, conc, notes):
    if "300 variables" in name:
        return replay_big_hash(name, conc, notes)
    if "HashGlobalVarDesc.__get__" in name:
        return replay_hash_get(name, conc, notes)
    if "PerCPUReader.read" in name or "PerCPUArrayMap.create_map" in name:
        return replay_percpu(name, conc, notes)
    return {"inputs": conc, "reproduced": None, "detail": "no native harness for this clause"}


native.fallback = lambda name: native(name, None, None) if "300 variables" in name else None


def run(tier, seed):
    from contracts import c10_buffers as S
    rep = R.Report("C10", tier, seed)
    for a in lib.ASSUMED:
        rep.assume(a)
    rep.assume("kernel ABI of the map commands: the kernel transfers key_size bytes at the key / next-key pointer "
               "and value_size bytes (per-CPU kinds: roundup8(value_size) * possible CPUs) at the value pointer")
    rep.assume("the number of possible CPUs is >= 1 and otherwise unknown; os.cpu_count() (online CPUs) is not "
               "related to it by any contract")
    rep.assume("class invariants used at the call sites are established by HashMap.init, Dict.init/TheDict.__init__ "
               "and PerCPUArrayMap.create_map (proved here) and by FastEtherCat.connect (create_map arguments read "
               "off the source: PROG_ARRAY 4/4); ArrayMap.collect makes size a multiple of 8 (C08)")
    rep.assume("arraymap.possible_cpus(): /sys/devices/system/cpu/possible lists every possible CPU (sysfs contract); "
               "os.cpu_count() and os.sched_getaffinity() are unrelated to the number of possible CPUs")
    saved = dict(api.REGISTRY)
    try:
        S.install_layer1()
        for c in S.LAYER1:
            api.verify(c, rep, replay=native)
        S.install_layer2()
        nop = type("Nop", (api.Contract_,), {"inline": False, "loops": {},
                                             "apply": lambda self, ex, a, k, f, n: None})()
        api.REGISTRY["ebpfcat.ebpf:EBPF.load"] = nop
        api.REGISTRY["ebpfcat.ebpf:EBPF.close"] = nop
        fmts = S.FMTS if tier == "thorough" else ["B", "I", "q"]
        cs = [S.hashmap_init, S.hashmap_big(), S.percpu_create, S.percpu_read, S.register]
        for f in fmts:
            cs += [S.hashvar_get(f), S.hashvar_set(f)]
        for K, V in (S.STRUCTS if tier == "thorough" else S.STRUCTS[::2]):
            cs += S.dict_contracts(K, V) + [S.dict_init(K, V)]
        for c in cs:
            api.verify(c, rep, replay=native)
        rep.bound("hash-variable formats and Structure definitions are enumerated (sizes concrete per definition); "
                  "file descriptors, counts, buffer contents and the number of possible CPUs are symbolic")
    finally:
        api.REGISTRY.clear()
        api.REGISTRY.update(saved)
    # PerCPUReader.read sizes its buffer as map.size * cpu_no and relies on
    # ArrayMap.collect returning a multiple of 8 (the kernel's per-CPU stride is
    # the value size rounded up to 8): C08's contract of collect, re-proved here
    from contracts import c08_arraymap as S8
    from props import c08
    c08.verify_fmtsize(rep)
    for sh in S8.SHAPES[:2]:
        for k in range(len(S8.CONCRETE_SIZES)):
            c = S8.collect_contract(sh, concrete=k)
            api.verify(c, rep, quiet=True, replay=lambda n, i, nt, sh=sh, k=k: c08.native_sizes(sh, k, n))
        c = S8.collect_contract(sh)
        api.verify(c, rep, quiet=True, replay=lambda n, i, nt, c=c: c08.native_collect(c, n, i, nt))
    return rep.finish(
        explanation="pyvc: call-site preconditions. Layer 1: the real source of bpf._lookup_elem / update_elem / "
        "delete_elem / get_next_key against the kernel ABI of bpf() (ghost pointers carry buffer lengths); layer 2: "
        "every caller of the map API in the package meets these preconditions from the class invariants of the "
        "maps it uses",
        trusted_base=["pyvc encoding (vc/pyvc)", "z3 5.1", "kernel ABI of the bpf() map commands"], level="other")


def replay_file(path):
    d = json.load(open(path))
    r = native(d["obligation"], d.get("inputs"), None)
    print(r["detail"])
    return 1 if r["reproduced"] else 0
