"""C12: sendloop (O1/O2/O6)"""
import multiprocessing as mp


def stall_demo(sizes, q):
    """the real sendloop with requests of the given data sizes queued at
    once; reports whether the loop handed control back to the event loop"""
    import asyncio
    from ebpfcat.ethercat import ECCmd, EtherCat

    async def go():
        ec = object.__new__(EtherCat)
        ec.send_queue = asyncio.Queue()
        ec.wait_futures = {}
        shipped = []

        async def pp(dgrams, packet):
            shipped.append(len(dgrams))
        ec.process_packet = pp
        for size in sizes:
            fut = asyncio.get_event_loop().create_future()
            ec.send_queue.put_nowait((ECCmd.FPRD, bytes(size), 0, 1, 2, fut))
        task = asyncio.ensure_future(ec.sendloop())
        for _ in range(5):
            await asyncio.sleep(0)
        q.put(("alive", fut.done(), shipped))
        task.cancel()
    asyncio.run(go())


def replay_stall(name, conc, notes):
    """a request that does not fit an empty frame, alone and queued behind /
    in front of ordinary requests (the pending-request path of the loop)"""
    tried = []
    for sizes in ([1473], [10, 1473], [1473, 10], [700, 700, 1473, 10]):
        q = mp.get_context("fork").Queue()
        p = mp.get_context("fork").Process(target=stall_demo, args=(sizes, q))
        p.start()
        p.join(3)
        stalled = p.is_alive()
        if stalled:
            p.kill()
            p.join()
            return {"inputs": {"request_data_bytes": sizes},
                    "reproduced": True,
                    "detail": f"real sendloop with requests of {sizes} data bytes queued at once (1473 does not "
                              f"fit an empty frame): the loop never returned to the event loop within 3 s "
                              f"(busy loop, master stalled)"}
        tried.append((sizes, q.get() if not q.empty() else ""))
    return {"inputs": {"request_data_bytes": [t[0] for t in tried]}, "reproduced": None,
            "detail": f"the loop stayed responsive in every scenario tried: {tried}"}


def replay_stranded(name, conc, notes):
    """requests queued in one go, some of them already cancelled by their
    owners: every live request must be shipped"""
    import asyncio
    from ebpfcat.ethercat import ECCmd, EtherCat
    bad = []
    for pattern in ("L", "LC", "LLC", "CL", "LCC", "LCL"):
        async def go():
            ec = object.__new__(EtherCat)
            ec.send_queue = asyncio.Queue()
            ec.wait_futures = {}
            shipped = []

            async def pp(dgrams, packet):
                shipped.extend(f for _, _, f in dgrams)
            ec.process_packet = pp
            futs = []
            for ch in pattern:
                fut = asyncio.get_event_loop().create_future()
                if ch == "C":
                    fut.cancel()
                futs.append((ch, fut))
                ec.send_queue.put_nowait((ECCmd.FPRD, bytes(4), 0, 1, 2, fut))
            task = asyncio.ensure_future(ec.sendloop())
            for _ in range(8):
                await asyncio.sleep(0)
            task.cancel()
            return [i for i, (ch, f) in enumerate(futs) if ch == "L" and f not in shipped]
        missing = asyncio.run(go())
        if missing:
            bad.append((pattern, missing))
    return {"inputs": {"queued at once (L live, C cancelled by its owner)": ["L", "LC", "LLC", "CL", "LCC", "LCL"]},
            "reproduced": True if bad else None,
            "detail": f"real sendloop: live requests that were never handed to process_packet although the queue "
                      f"ran empty: {bad}"}


def replay_order(name, conc, notes):
    """twenty requests queued in one go: the order in which they are handed
    to process_packet (frame after frame) is the submission order"""
    import asyncio
    from ebpfcat.ethercat import ECCmd, EtherCat

    async def go():
        ec = object.__new__(EtherCat)
        ec.send_queue = asyncio.Queue()
        ec.wait_futures = {}
        shipped = []

        async def pp(dgrams, packet):
            shipped.extend(f for _, _, f in dgrams)
        ec.process_packet = pp
        futs = []
        for i in range(20):
            fut = asyncio.get_event_loop().create_future()
            futs.append(fut)
            ec.send_queue.put_nowait((ECCmd.FPRD, bytes(4), 0, 1, i, fut))
        task = asyncio.ensure_future(ec.sendloop())
        for _ in range(60):
            await asyncio.sleep(0)
        task.cancel()
        return [futs.index(f) for f in shipped]
    order = asyncio.run(go())
    return {"inputs": {"requests queued at once": 20}, "reproduced": True if order != sorted(order) else None,
            "detail": f"real sendloop handed the requests to process_packet in the order {order}"}


def verify(rep):
    from contracts import c12_sendloop as S
    from vc.pyvc import api
    saved = dict(api.REGISTRY)
    S.install()
    try:
        api.verify(S.sendloop, rep, options={"inline": set()},
                   replay=lambda n, i, nt: replay_stall(n, i, nt) if "without_progress" in n else
                   replay_stranded(n, i, nt) if "a_batch_waits" in n or "no batched request" in n else
                   replay_order(n, i, nt) if "submission_order" in n else
                   {"inputs": i, "reproduced": None, "detail": "no native harness for this clause"})
    finally:
        api.REGISTRY.clear()
        api.REGISTRY.update(saved)
