"""C12: sendloop (O1/O2/O6)"""
import multiprocessing as mp


def stall_demo(size, q):
    """the real sendloop with one request of `size` data bytes; reports
    whether the loop handed control back to the event loop"""
    import asyncio
    from ebpfcat.ethercat import ECCmd, EtherCat

    async def go():
        ec = object.__new__(EtherCat)
        ec.send_queue = asyncio.Queue()
        ec.wait_futures = {}
        shipped = []

        async def pp(dgrams, packet):
            shipped.append(len(dgrams))
        ec.process_packet = pp
        fut = asyncio.get_event_loop().create_future()
        ec.send_queue.put_nowait((ECCmd.FPRD, bytes(size), 0, 1, 2, fut))
        task = asyncio.ensure_future(ec.sendloop())
        for _ in range(5):
            await asyncio.sleep(0)
        q.put(("alive", fut.done(), shipped))
        task.cancel()
    asyncio.run(go())


def replay_stall(name, conc, notes):
    size = 1473
    q = mp.get_context("fork").Queue()
    p = mp.get_context("fork").Process(target=stall_demo, args=(size, q))
    p.start()
    p.join(3)
    stalled = p.is_alive()
    if stalled:
        p.kill()
        p.join()
    return {"inputs": {"request_data_bytes": size},
            "reproduced": stalled,
            "detail": f"real sendloop with one request of {size} data bytes (does not fit an empty frame): "
                      + ("the loop never returned to the event loop within 3 s (busy loop, master stalled)"
                         if stalled else f"the loop stayed responsive: {q.get() if not q.empty() else ''}")}


def verify(rep):
    from contracts import c12_sendloop as S
    from vc.pyvc import api
    saved = dict(api.REGISTRY)
    S.install()
    try:
        api.verify(S.sendloop, rep, options={"inline": set()},
                   replay=lambda n, i, nt: replay_stall(n, i, nt) if "without_progress" in n else
                   {"inputs": i, "reproduced": None, "detail": "no native harness for this clause"})
    finally:
        api.REGISTRY.clear()
        api.REGISTRY.update(saved)
