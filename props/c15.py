"""C15 -- mailbox exchanges with a terminal are serialised and counted"""
import asyncio
import json
import os
import tempfile

from vc import report as R
from vc import smt
from vc.pyvc import api, lib


# ------------------------------------------------------------ native replays
def replay_short_read(name, conc, notes):
    """a participant opens the lock file while it is still empty (creation
    window) and then uses its mailbox lock"""
    from ebpfcat.lock import LockFile, ParallelMailboxLock
    d = tempfile.mkdtemp(prefix="c15-")
    fn = os.path.join(d, "lockfile")
    try:
        open(fn, "wb").close()                 # the creator has done os.open(O_EXCL) only
        lf = LockFile(fn, 1000, 1010)          # second participant: FileExistsError branch
        l = ParallelMailboxLock(lf, 1005)

        async def use():
            async with l:
                return l.next_counter()
        try:
            c = asyncio.run(use())
            out, bad = f"obtained counter {c}", not (isinstance(c, int) and 0 <= c <= 7)
        except Exception as e:
            out, bad = f"raised {type(e).__name__}: {e}", True
        lf.close()
    finally:
        import shutil
        shutil.rmtree(d, ignore_errors=True)
    return {"inputs": {"lock file": "exists, 0 bytes (between os.open(O_EXCL) and its initialisation)",
                       "terminal": 1005},
            "reproduced": bad,
            "detail": f"real LockFile + ParallelMailboxLock on an empty lock file: {out}"}


def replay_two_tasks(name, conc, notes):
    """two tasks of one process use the same ParallelMailboxLock"""
    from ebpfcat.lock import LockFile, ParallelMailboxLock
    d = tempfile.mkdtemp(prefix="c15-")
    fn = os.path.join(d, "lockfile")
    try:
        lf = LockFile(fn, 1000, 1010)
        l = ParallelMailboxLock(lf, 1005)
        state = {"inside": 0, "max": 0, "counters": []}

        async def user():
            async with l:
                state["inside"] += 1
                state["max"] = max(state["max"], state["inside"])
                state["counters"].append(l.next_counter())
                await asyncio.sleep(0)
                await asyncio.sleep(0)
                state["counters"].append(l.next_counter())
                state["inside"] -= 1

        async def both():
            await asyncio.gather(user(), user())
        try:
            asyncio.run(asyncio.wait_for(both(), 5))
            err = ""
        except Exception as e:
            err = f"; raised {type(e).__name__}: {e}"
        lf.close()
    finally:
        import shutil
        shutil.rmtree(d, ignore_errors=True)
    cs = state["counters"]
    seq_ok = all(b == (1 if a in (0, 7) else a + 1) for a, b in zip(cs, cs[1:]))
    return {"inputs": {"tasks": 2, "same process": True, "terminal": 1005},
            "reproduced": state["max"] > 1 or not seq_ok or bool(err),
            "detail": f"two asyncio tasks on one real ParallelMailboxLock: at most {state['max']} inside at once, "
                      f"counters handed out {cs}{err}"}


def replay_wipe(name, conc, notes):
    """another participant stores a counter between the creator's os.open and
    its initialisation of the file"""
    import ebpfcat.lock as L
    d = tempfile.mkdtemp(prefix="c15-")
    fn = os.path.join(d, "lockfile")
    real_os = L.os
    done = {}

    class OSProxy:
        def __getattr__(self, k):
            return getattr(real_os, k)

        def _other(self):
            if not done:
                fd2 = real_os.open(fn, real_os.O_RDWR)
                real_os.pwrite(fd2, b"\x05", 3)     # __aexit__ of the other participant
                real_os.close(fd2)
                done["x"] = True

        def write(self, fd, data):
            self._other()
            return real_os.write(fd, data)

        def ftruncate(self, fd, n):
            self._other()
            return real_os.ftruncate(fd, n)
    try:
        L.os = OSProxy()
        lf = L.LockFile(fn, 1000, 1010)
        L.os = real_os
        b = os.pread(lf.fd, 1, 3)
        lf.close()
    finally:
        L.os = real_os
        import shutil
        shutil.rmtree(d, ignore_errors=True)
    return {"inputs": {"other participant": "pwrite(counter 5 for terminal 1003) between the creator's "
                                            "os.open(O_EXCL) and its initialisation of the file"},
            "reproduced": b != b"\x05",
            "detail": f"real LockFile.__init__ with the other participant's write interposed: byte 3 afterwards "
                      f"= {b!r} (stored counter was 5)"}


REPLAYS = {"raises.unexpected[ValueError]": replay_short_read,
           "exclusive_among_the_tasks": replay_two_tasks,
           "keeps the counters others stored": replay_wipe}


def native(name, conc, notes):
    for k, f in REPLAYS.items():
        if k in name:
            return f(name, conc, notes)
    return {"inputs": conc, "reproduced": None, "detail": "no native harness for this clause"}


def run(tier, seed):
    from contracts import c15_mailbox as S
    import ebpfcat.ethercat as E
    rep = R.Report("C15", tier, seed)
    for a in lib.ASSUMED:
        rep.assume(a)
    rep.assume("asyncio.Lock is exclusive among the tasks of one process (acquire returns only when free)")
    rep.assume("fcntl.lockf record locks are exclusive among processes only (POSIX: owned by the process); "
               "LOCK_NB raises OSError iff another process holds the range")
    rep.assume("os.open(O_CREAT|O_EXCL) creates an empty file or raises FileExistsError; os.write at offset 0 "
               "overwrites; os.ftruncate keeps existing bytes; os.pread beyond the end returns b''")
    rep.assume("rely: the other tasks and processes run this same code (a task is inside only while it holds "
               "the lock object's asyncio.Lock; the counter byte is touched only by the lockf holder)")
    saved = dict(api.REGISTRY)
    api.REGISTRY.update(S.LOCK_MODEL)
    try:
        for c in (S.mailbox_next, S.pml_next, S.pml_enter, S.pml_exit, S.lockfile_init):
            api.verify(c, rep, replay=native)
        api.REGISTRY["ebpfcat.ethercat:EtherCat.roundtrip"] = S.MbxBus()
        api.REGISTRY["ebpfcat.ethercat:Terminal.mbx_recv"] = S.RecvStub()
        api.verify(S.mbx_send_contract(), rep, replay=native)
    finally:
        api.REGISTRY.clear()
        api.REGISTRY.update(saved)
    # call-site obligations: the lock is held wherever the mailbox is used
    import inspect
    rep.function("ebpfcat.ethercat (scan of Terminal for mailbox call sites)", inspect.getsource(E.Terminal))
    sites = S.lock_discipline(E)
    if not sites:
        rep.broken.append("no mailbox call site found in ethercat.Terminal")
    for fn, line, callee, ok, why in sites:
        rep.obligation(f"call[Terminal.{callee}].requires[mailbox lock held]@Terminal.{fn}#{callee}"
                       f"{sum(1 for s in sites if s[0] == fn and s[2] == callee and s[1] <= line)}",
                       smt.Result(smt.PROVED if ok else smt.REFUTED, "ast-dominance", 0, None, why),
                       func=f"ebpfcat.ethercat:Terminal.{fn}",
                       text=f"line {line}: {callee} is called {why}",
                       replay=lambda m, fn=fn, line=line, callee=callee: {
                           "inputs": {"function": fn, "line": line, "call": callee}, "reproduced": True,
                           "detail": f"Terminal.{fn} line {line} calls {callee} outside `async with self.mbx_lock`"})
    return rep.finish(
        explanation="pyvc: the real source of MailboxLock/ParallelMailboxLock.next_counter (cycle step), "
        "ParallelMailboxLock.__aenter__/__aexit__ (exclusive ownership of the counter byte: resource invariant, "
        "rely on lockf/asyncio.Lock contracts), LockFile.__init__ (creation window: guarantee towards other "
        "participants) and Terminal.mbx_send (header carries the lock's counter); every mailbox call site of "
        "Terminal is under the terminal's lock (structural rule of the with-statement)",
        trusted_base=["pyvc encoding (vc/pyvc)", "z3 5.1", "POSIX lockf / asyncio.Lock contracts"], level="other")


def replay_file(path):
    d = json.load(open(path))
    for k, f in REPLAYS.items():
        if k in d["obligation"]:
            r = f(d["obligation"], d.get("inputs"), None)
            print(r["detail"])
            return 1 if r["reproduced"] else 0
    print(json.dumps(d, indent=1)[:3000])
    return 0
